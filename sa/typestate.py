"""Path-sensitive typestate / effect analysis over the AST of lifecycle operations.

A small structured abstract interpreter (no solver, nothing executed): it walks the statements of
an entry function, inlines resolved repo callees that (transitively) carry lifecycle effects,
treats generators as coroutines (the consumer's loop body runs at each ``yield``), unrolls loops
over symbolic id collections exactly and over unknown iterables 0..K times, follows exception
edges (``set_invocation_status`` may raise exactly when the abstract status set is not contained
in the predecessors of the requested status, or when the knowledge about the status is stale),
and records after every effect the abstract state of every invocation token:

    status set (subset of the 14 statuses), knowledge (own | read), queued flag, responsibility.

Rules (C03, C04/R3, C06/R3, C11) are predicates over the produced traces.
"""

from __future__ import annotations

import ast
import itertools
from dataclasses import dataclass, field, replace
from typing import Callable, Iterator

from .flow import ExcHierarchy, call_name
from .loader import AnalysisError, ClassInfo, FuncInfo, Repo, walk_no_nested
from .resolve import Resolver
from .statusmodel import StatusModel

# ------------------------------------------------------------------------------ values


@dataclass(frozen=True)
class Inv:
    tok: str


@dataclass(frozen=True)
class IdSet:
    name: str
    members: tuple = ()


@dataclass(frozen=True)
class SetRef:
    ref: str


@dataclass(frozen=True)
class StatusOf:
    tok: str


@dataclass(frozen=True)
class GenCall:
    """an un-started call of an effectful generator function"""
    func: FuncInfo
    env: tuple  # frozen items of the callee environment


@dataclass(frozen=True)
class Source:
    kind: str  # scan:PENDING | scan:RUNNING | blocking | threads | unknown
    text: str = ""


@dataclass(frozen=True)
class ExcVal:
    cls: str
    tok: str | None = None
    from_final: bool | None = None


UNK = None
TASK_EXC = "*task-exception*"


@dataclass(frozen=True)
class IState:
    status: frozenset  # possible statuses
    own: bool = False  # knowledge established by this actor's own successful transition
    queued: bool = False
    responsible: bool = False  # this actor popped / took it
    accepted: bool = True  # False while inside the submission path (caller has nothing yet)


@dataclass(frozen=True)
class Event:
    kind: str  # S | S! | Q+ | Q- | ADD | CALL | RET | YIELD | GUARD | ...
    tok: str | None
    detail: str
    func: str
    lineno: int
    file: str

    def sig(self) -> str:
        return f"{self.kind}({self.detail})@{self.func.split('.')[-1]}"

    def loc(self) -> str:
        return f"{self.file}:{self.lineno}"


@dataclass
class State:
    istates: dict[str, IState] = field(default_factory=dict)
    trace: list[tuple[Event, dict[str, IState]]] = field(default_factory=list)
    counter: int = 0
    notes: list[str] = field(default_factory=list)
    sets: dict[str, tuple] = field(default_factory=dict)

    def copy(self) -> "State":
        return State(dict(self.istates), list(self.trace), self.counter, list(self.notes), dict(self.sets))

    def members(self, v) -> tuple | None:
        if isinstance(v, IdSet):
            return v.members
        if isinstance(v, SetRef):
            return self.sets.get(v.ref, ())
        return None

    def fresh(self, st: IState, hint: str = "i") -> str:
        self.counter += 1
        tok = f"{hint}{self.counter}"
        self.istates[tok] = st
        return tok

    def emit(self, ev: Event) -> None:
        self.trace.append((ev, dict(self.istates)))


@dataclass
class Outcome:
    kind: str  # normal | return | raise | break | continue | abandon
    value: object = None
    exc: ExcVal | None = None


class Budget(Exception):
    pass


def ev(st: "State", e: Event) -> "State":
    s = st.copy()
    s.emit(e)
    return s


def note(st: "State", text: str) -> "State":
    s = st.copy()
    s.notes.append(text)
    return s


# ------------------------------------------------------------------------------ engine
EFFECT_NAMES = {
    "set_invocation_status", "route_invocation", "route_invocations", "retrieve_invocation",
    "_register_new_invocations", "index_arguments_for_concurrency_control",
}


class Engine:
    def __init__(self, repo: Repo, rs: Resolver, sm: StatusModel, loop_k: int = 2, max_paths: int = 3000000, max_depth: int = 7):
        self.repo = repo
        self.rs = rs
        self.sm = sm
        self.hier = ExcHierarchy(repo)
        self.loop_k = loop_k
        self.loop_k_in: dict[str, int] = {}  # function qualname -> unrolling bound for the loops written in that function
        self.max_paths = max_paths
        self.max_depth = max_depth
        self.all_status = frozenset(sm.members)
        self.ownership_errors = True  # a refused request of a non-owner may raise the ownership error as well
        self.available = frozenset(sm.available)
        self.final = frozenset(sm.final)
        self._effectful: dict[str, bool] = {}
        self.paths = 0
        self.inlined: set[str] = set()
        self.unresolved_effect_calls: list[str] = []
        self.memoise = True
        self._memo: set = set()
        self.memo_hits = 0
        self.nondet_iter: set[str] = set()

    # ---- which callees matter
    def effectful(self, f: FuncInfo, _seen: frozenset = frozenset()) -> bool:
        q = f.qualname
        if q in self._effectful:
            return self._effectful[q]
        if q in _seen:
            return False
        res = False
        for n in ast.walk(f.node):
            if isinstance(n, ast.Call):
                nm = call_name(n)
                if nm in EFFECT_NAMES:
                    res = True
                    break
        if not res:
            for n in walk_no_nested(f.node):
                if isinstance(n, ast.Call):
                    tg, how = self.rs.call_targets(f, n)
                    if how in ("exact", "cha", "name"):
                        for t in tg:
                            if t.module.name.startswith("pynenc") and not t.is_abstract and t is not f and self.effectful(t, _seen | {q}):
                                res = True
                                break
                if res:
                    break
        self._effectful[q] = res
        return res

    # ---- public entry
    def _memo_hit(self, node: ast.AST, k: int, fr: "Frame", st: State) -> bool:
        """Loop-head memoisation: the future of a path depends only on the abstract state, so a
        second arrival at the same loop head with an identical state (token states, id sets, token
        bindings of the frame) is pruned.  Findings are keyed by event signatures, not token names."""
        if not self.memoise:
            return False
        hist: dict[str, list] = {}
        for e, _ in st.trace:
            if e.tok is not None:
                hist.setdefault(e.tok, []).append((e.kind, e.detail, e.func))

        def tstate(t: str):
            i = st.istates.get(t)
            # the per-token event history is part of the state: the rules are functions of it
            return (tuple(sorted(i.status)), i.own, i.queued, i.responsible, i.accepted, tuple(hist.get(t, ()))) if i else None

        # token names are erased: states are compared up to renaming of tokens
        sk = tuple(sorted(tstate(t) for t in st.istates))

        def vkey(v):
            if isinstance(v, Inv):
                return ("inv", tstate(v.tok))
            if isinstance(v, StatusOf):
                return ("status", tstate(v.tok))
            if isinstance(v, IdSet):
                return ("idset", tuple(tstate(m) for m in v.members))
            if isinstance(v, SetRef):
                return ("set", tuple(tstate(m) for m in st.sets.get(v.ref, ())))
            return None

        ek = tuple(sorted((n, vkey(v)) for n, v in fr.env.items() if isinstance(v, (Inv, SetRef, IdSet, StatusOf)) and not n.startswith("__arg")))
        key = (id(node), k, sk, ek, id(fr.on_yield) if fr.on_yield else 0)
        if key in self._memo:
            self.memo_hits += 1
            return True
        self._memo.add(key)
        return False

    def run(self, f: FuncInfo, env: dict, state: State | None = None, on_yield=None) -> list[tuple[State, Outcome]]:
        self.paths = 0
        self._memo = set()
        st = state or State()
        out = []
        for s, o in self.exec_func(f, env, st, on_yield):
            out.append((s, o))
        return out

    def exec_func(self, f: FuncInfo, env: dict, st: State, on_yield=None) -> Iterator[tuple[State, Outcome]]:
        depth = env.get("__depth__", 0)
        if depth > self.max_depth:
            s0 = st.copy()
            s0.notes.append(f"inlining depth cut at {f.qualname}")
            yield s0, Outcome("return", None)
            return
        self.inlined.add(f.qualname)
        env = dict(env)
        env["__depth__"] = depth
        frame = Frame(f, env, on_yield)
        for s, o in self.block(f.node.body, frame, st):
            if o.kind in ("normal",):
                yield s, Outcome("return", None)
            elif o.kind in ("break", "continue"):
                yield s, Outcome("return", None)
            else:
                yield s, o

    # ---- statements
    def block(self, body: list[ast.stmt], fr: "Frame", st: State) -> Iterator[tuple[State, Outcome]]:
        if not body:
            yield st, Outcome("normal", fr.env)
            return
        head, rest = body[0], body[1:]
        for s, o in self.stmt(head, fr, st):
            if o.kind == "normal":
                env2 = o.value if isinstance(o.value, dict) else fr.env
                if rest:
                    yield from self.block(rest, fr.with_env(env2), s)
                else:
                    yield s, Outcome("normal", env2)
            else:
                yield s, o

    def tick(self) -> None:
        self.paths += 1
        if self.paths > self.max_paths:
            raise Budget()

    def stmt(self, n: ast.stmt, fr: "Frame", st: State) -> Iterator[tuple[State, Outcome]]:
        self.tick()
        if isinstance(n, ast.Expr):
            if isinstance(n.value, ast.Constant):
                yield st, Outcome("normal")
                return
            if isinstance(n.value, (ast.Yield, ast.YieldFrom)):
                yield from self.do_yield(n.value, fr, st)
                return
            for s, v, exc in self.eval(n.value, fr, st):
                yield (s, Outcome("raise", exc=exc)) if exc else (s, Outcome("normal"))
            return
        if isinstance(n, (ast.Assign, ast.AnnAssign)):
            val = n.value
            if val is None:
                yield st, Outcome("normal")
                return
            if isinstance(val, (ast.Yield, ast.YieldFrom)):
                yield from self.do_yield(val, fr, st)
                return
            tgts = n.targets if isinstance(n, ast.Assign) else [n.target]
            for s, v, exc in self.eval(val, fr, st):
                if exc:
                    yield s, Outcome("raise", exc=exc)
                    continue
                fr2 = fr.fork()
                for t in tgts:
                    s = self.bind(t, v, fr2, s)
                yield s, Outcome("normal", fr2.env)
            return
        if isinstance(n, ast.AugAssign):
            yield st, Outcome("normal")
            return
        if isinstance(n, ast.If):
            for s, truth, fr2, exc in self.cond(n.test, fr, st):
                if exc:
                    yield s, Outcome("raise", exc=exc)
                    continue
                body = n.body if truth else n.orelse
                for s2, o in self.block(body, fr2, s):
                    # propagate environment of the taken branch
                    yield s2, o
            return
        if isinstance(n, ast.While):
            yield from self.loop_while(n, fr, st, self.loop_k_in.get(fr.f.qualname, self.loop_k))
            return
        if isinstance(n, (ast.For, ast.AsyncFor)):
            yield from self.loop_for(n, fr, st)
            return
        if isinstance(n, ast.Try):
            yield from self.do_try(n, fr, st)
            return
        if isinstance(n, (ast.With, ast.AsyncWith)):
            yield from self.block(n.body, fr, st)
            return
        if isinstance(n, ast.Return):
            if n.value is None:
                yield st, Outcome("return", None)
                return
            for s, v, exc in self.eval(n.value, fr, st):
                yield (s, Outcome("raise", exc=exc)) if exc else (s, Outcome("return", v))
            return
        if isinstance(n, ast.Raise):
            if n.exc is None:
                yield st, Outcome("raise", exc=fr.env.get("__current_exc__") or ExcVal("Exception"))
                return
            if isinstance(n.exc, ast.Name) and isinstance(fr.env.get(n.exc.id), ExcVal):
                yield st, Outcome("raise", exc=fr.env[n.exc.id])
                return
            e = n.exc.func if isinstance(n.exc, ast.Call) else n.exc
            txt = ast.unparse(e)
            cls = txt.split(".")[-1]
            if isinstance(n.exc, ast.Call) and isinstance(n.exc.func, ast.Attribute) and not n.exc.func.attr[:1].isupper():
                cls = ast.unparse(n.exc.func.value).split(".")[-1]
            yield st, Outcome("raise", exc=ExcVal(cls))
            return
        if isinstance(n, ast.Break):
            yield st, Outcome("break")
            return
        if isinstance(n, ast.Continue):
            yield st, Outcome("continue")
            return
        if isinstance(n, (ast.Pass, ast.Import, ast.ImportFrom, ast.Global, ast.Nonlocal, ast.FunctionDef, ast.AsyncFunctionDef, ast.ClassDef, ast.Delete, ast.Assert)):
            yield st, Outcome("normal")
            return
        yield st, Outcome("normal")

    def bind(self, t: ast.AST, v, fr: "Frame", st: State) -> State:
        """binds into fr.env (fr must be a private fork); returns the (possibly new) state"""
        if isinstance(t, ast.Name):
            if isinstance(v, IdSet):
                # a fresh mutable collection lives on the heap of the path state
                st = st.copy()
                st.counter += 1
                ref = f"set{st.counter}:{t.id}"
                st.sets[ref] = v.members
                v = SetRef(ref)
            fr.env[t.id] = v
        elif isinstance(t, (ast.Tuple, ast.List)):
            for i, e in enumerate(t.elts):
                st = self.bind(e, v[i] if isinstance(v, tuple) and len(v) == len(t.elts) else UNK, fr, st)
        elif isinstance(t, ast.Subscript):
            # self.threads[invocation.invocation_id] = ThreadInfo(...): tracking-table insert
            base = ast.unparse(t.value)
            key = self.pure(t.slice, fr, st)
            if isinstance(key, Inv):
                st = ev(st, Event("TRACK", key.tok, base, fr.f.qualname, t.lineno, fr.f.module.relpath))
        return st

    # ---- loops
    def loop_while(self, n: ast.While, fr: "Frame", st: State, k: int) -> Iterator[tuple[State, Outcome]]:
        # zero or more iterations; the test may have effects (walrus pop)
        const_true = isinstance(n.test, ast.Constant) and bool(n.test.value)
        if self._memo_hit(n, k, fr, st):
            return
        for s, truth, fr2, exc in self.cond(n.test, fr, st):
            if exc:
                yield s, Outcome("raise", exc=exc)
                continue
            if not truth:
                if not const_true:
                    yield s, Outcome("normal", fr2.env)
                continue
            if k <= 0:
                # bound reached: leave the loop (sound for 'may' findings already seen; noted)
                yield note(s, f"loop bound at {fr.f.name}:{n.lineno}"), Outcome("normal", fr2.env)
                continue
            for s2, o in self.block(n.body, fr2, s):
                if o.kind in ("normal", "continue"):
                    fr3 = fr2.with_env(o.value) if isinstance(o.value, dict) else fr2
                    yield from self.loop_while(n, fr3, s2, k - 1)
                elif o.kind == "break":
                    yield s2, Outcome("normal")
                else:
                    yield s2, o

    def loop_for(self, n: ast.For, fr: "Frame", st: State) -> Iterator[tuple[State, Outcome]]:
        for s, itv, exc in self.eval(n.iter, fr, st):
            if exc:
                yield s, Outcome("raise", exc=exc)
                continue
            if s.members(itv) is not None:
                yield from self.iterate_items(n, fr, s, [Inv(m) for m in s.members(itv)])
            elif isinstance(itv, GenCall):
                yield from self.iterate_gen(n, fr, s, itv)
            elif isinstance(itv, Source):
                yield from self.iterate_source(n, fr, s, itv, self.loop_k_in.get(fr.f.qualname, self.loop_k))
            elif isinstance(itv, tuple):
                yield from self.iterate_items(n, fr, s, list(itv))
            else:
                yield from self.iterate_source(n, fr, s, Source("unknown", ast.unparse(n.iter)[:40]), min(self.loop_k, 1) if not self.has_effects(n) else self.loop_k)

    def has_effects(self, n: ast.AST) -> bool:
        for x in ast.walk(n):
            if isinstance(x, ast.Call) and (call_name(x) in EFFECT_NAMES or call_name(x) in ("reroute_invocations", "_kill_and_reroute", "run", "set_invocation_retry", "set_invocation_result", "set_invocation_exception")):
                return True
        return False

    def iterate_items(self, n, fr, st, items) -> Iterator[tuple[State, Outcome]]:
        if not items:
            yield st, Outcome("normal")
            return
        fr2 = fr.fork()
        st = self.bind(n.target, items[0], fr2, st)
        for s2, o in self.block(n.body, fr2, st):
            if o.kind in ("normal", "continue"):
                yield from self.iterate_items(n, fr2.with_env(o.value) if isinstance(o.value, dict) else fr2, s2, items[1:])
            elif o.kind == "break":
                yield s2, Outcome("normal")
            else:
                yield s2, o

    def source_token(self, src: Source, st: State) -> object:
        if src.kind == "scan:PENDING":
            return Inv(st.fresh(IState(frozenset({"PENDING"}), own=False), "p"))
        if src.kind == "scan:RUNNING":
            return Inv(st.fresh(IState(frozenset({"RUNNING"}), own=False), "r"))
        if src.kind == "blocking":
            return Inv(st.fresh(IState(self.all_status, own=False), "b"))
        if src.kind == "threads":
            return Inv(st.fresh(IState(frozenset({"PENDING", "RUNNING"}) | self.final | frozenset({"RETRY", "REROUTED"}), own=False, responsible=True), "t"))
        return UNK

    def iterate_source(self, n, fr, st, src: Source, k: int) -> Iterator[tuple[State, Outcome]]:
        if self._memo_hit(n, k, fr, st):
            return
        # zero iterations
        yield st, Outcome("normal")
        if k <= 0:
            return
        s = st.copy()
        fr2 = fr.fork()
        v = self.source_token(src, s)
        s = self.bind(n.target, v, fr2, s)
        for s2, o in self.block(n.body, fr2, s):
            if o.kind in ("normal", "continue"):
                # further iterations (k-1), the zero-iteration continuation is included there
                yield from self.iterate_source(n, fr2.with_env(o.value) if isinstance(o.value, dict) else fr2, s2, src, k - 1)
            elif o.kind == "break":
                yield s2, Outcome("normal")
            else:
                yield s2, o

    def iterate_gen(self, n, fr, st, g: GenCall) -> Iterator[tuple[State, Outcome]]:
        """Coroutine inlining: the loop body runs at each yield of the generator."""

        def on_yield(val, s: State) -> Iterator[tuple[State, Outcome]]:
            fr2 = fr.fork()
            s = self.bind(n.target, val, fr2, s)
            yield from self.block(n.body, fr2, s)

        for s, o in self.exec_func(g.func, dict(g.env), st, on_yield):
            if o.kind == "return":
                yield s, Outcome("normal")
            elif o.kind == "abandon":
                # the consumer left the loop (break / return / raise inside its body)
                inner: Outcome = o.value  # type: ignore
                s = ev(s, Event("GEN-ABANDONED", None, g.func.name, fr.f.qualname, n.lineno, fr.f.module.relpath))
                if inner.kind == "break":
                    yield s, Outcome("normal")
                else:
                    yield s, inner
            else:
                yield s, o

    def do_yield(self, y, fr: "Frame", st: State) -> Iterator[tuple[State, Outcome]]:
        if isinstance(y, ast.YieldFrom):
            for s, v, exc in self.eval(y.value, fr, st):
                if exc:
                    yield s, Outcome("raise", exc=exc)
                elif isinstance(v, GenCall):
                    for s2, o in self.exec_func(v.func, dict(v.env), s, fr.on_yield):
                        if o.kind == "return":
                            yield s2, Outcome("normal")
                        else:
                            yield s2, o
                else:
                    # unknown iterable: yield up to K unknown items
                    yield from self._yield_items(fr, s, [UNK])
            return
        vals = [(st, UNK, None)] if y.value is None else list(self.eval(y.value, fr, st))
        for s, v, exc in vals:
            if exc:
                yield s, Outcome("raise", exc=exc)
                continue
            yield from self._yield_items(fr, s, [v])

    def _yield_items(self, fr: "Frame", st: State, items: list) -> Iterator[tuple[State, Outcome]]:
        if fr.on_yield is None:
            yield ev(st, Event("YIELD", items[0].tok if isinstance(items[0], Inv) else None, "to-caller", fr.f.qualname, 0, fr.f.module.relpath)), Outcome("normal")
            return
        v = items[0]
        st = ev(st, Event("YIELD", v.tok if isinstance(v, Inv) else None, "", fr.f.qualname, 0, fr.f.module.relpath))
        for s2, o in fr.on_yield(v, st):
            if o.kind in ("normal", "continue"):
                yield s2, Outcome("normal")
            else:
                yield s2, Outcome("abandon", o)

    # ---- try
    def do_try(self, n: ast.Try, fr: "Frame", st: State) -> Iterator[tuple[State, Outcome]]:
        def with_finally(results):
            for s, o in results:
                if not n.finalbody:
                    yield s, o
                    continue
                for s2, o2 in self.block(n.finalbody, fr, s):
                    if o2.kind == "normal":
                        yield s2, o
                    else:
                        yield s2, o2

        def body_and_handlers():
            for s, o in self.block(n.body, fr, st):
                if o.kind == "raise" and o.exc is not None:
                    yield from self.handle(n, o.exc, fr, s)
                elif o.kind == "normal" and n.orelse:
                    yield from self.block(n.orelse, fr.with_env(o.value) if isinstance(o.value, dict) else fr, s)
                else:
                    yield s, o

        yield from with_finally(body_and_handlers())

    def handle(self, n: ast.Try, exc: ExcVal, fr: "Frame", st: State) -> Iterator[tuple[State, Outcome]]:
        for h in n.handlers:
            verdict = self.hier.catches(exc.cls, h)
            names = self.hier.handler_names(h)
            dynamic = any(not x[:1].isupper() for x in names)
            if exc.cls == TASK_EXC:
                # the task body may raise anything a user can raise: every handler may apply, a
                # catch-all ends the search; assumption: bodies do not raise pynenc's status errors
                verdict = "yes" if ("Exception" in names or "BaseException" in names) else "maybe"
                if any(x.startswith("InvocationStatus") for x in names):
                    verdict = "no"
            elif dynamic:
                # assumption: users do not declare pynenc's own status errors as retriable
                verdict = "no"
            if verdict in ("yes", "maybe"):
                fr2 = fr.fork()
                if h.name:
                    fr2.env[h.name] = exc
                fr2.env["__current_exc__"] = exc
                s = ev(st, Event("CAUGHT", exc.tok, f"{exc.cls} by except {ast.unparse(h.type) if h.type else ''}", fr.f.qualname, h.lineno, fr.f.module.relpath))
                yield from self.block(h.body, fr2, s)
                if verdict == "yes":
                    return
        yield st, Outcome("raise", exc=exc)

    # ---- conditions
    def cond(self, test: ast.AST, fr: "Frame", st: State) -> Iterator[tuple[State, bool, "Frame", ExcVal | None]]:
        """yields (state, truth, frame, exception)"""
        if isinstance(test, ast.UnaryOp) and isinstance(test.op, ast.Not):
            for s, t, f2, exc in self.cond(test.operand, fr, st):
                yield s, (not t), f2, exc
            return
        if isinstance(test, ast.BoolOp):
            # evaluate left to right with short circuit
            def rec(vals, f0, s0):
                if not vals:
                    yield s0, isinstance(test.op, ast.And), f0, None
                    return
                for s, t, f2, exc in self.cond(vals[0], f0, s0):
                    if exc:
                        yield s, False, f2, exc
                    elif isinstance(test.op, ast.And) and not t:
                        yield s, False, f2, None
                    elif isinstance(test.op, ast.Or) and t:
                        yield s, True, f2, None
                    else:
                        yield from rec(vals[1:], f2, s)

            yield from rec(list(test.values), fr, st)
            return
        if isinstance(test, ast.NamedExpr):
            for s, v, exc in self.eval(test.value, fr, st):
                if exc:
                    yield s, False, fr, exc
                    continue
                fr2 = fr.fork()
                fr2.env[test.target.id] = v
                if isinstance(v, Inv):
                    yield s, True, fr2, None
                    if isinstance(test.value, ast.Call) and call_name(test.value) == "retrieve_invocation":
                        # the falsy outcome of a pop = empty queue: no token, no event
                        fr0 = fr.fork()
                        fr0.env[test.target.id] = UNK
                        yield st, False, fr0, None
                elif v is UNK:
                    yield s, True, fr2, None
                    yield s, False, fr2, None
                else:
                    yield s, True, fr2, None
            return
        # status predicates
        if isinstance(test, ast.Call) and isinstance(test.func, ast.Attribute) and test.func.attr in ("is_available_for_run", "is_final", "can_transition_to"):
            recv = self.pure(test.func.value, fr, st)
            rv = test.func.value
            if isinstance(rv, ast.Call) and call_name(rv) == "get_invocation_status" and rv.args:
                # the predicate applied directly to a fresh status read: self.get_invocation_status(x).is_...()
                a0 = self.pure(rv.args[0], fr, st)
                if isinstance(a0, Inv):
                    recv = StatusOf(a0.tok)
            if isinstance(recv, StatusOf) and recv.tok in st.istates:
                cur = st.istates[recv.tok]
                if test.func.attr == "is_available_for_run":
                    tset = self.available
                elif test.func.attr == "is_final":
                    tset = self.final
                else:
                    arg = test.args[0] if test.args else None
                    tgt = arg.attr if isinstance(arg, ast.Attribute) else None
                    tset = frozenset(self.sm.preds(tgt) - {"START"}) if tgt else self.all_status
                yes, no = cur.status & tset, cur.status - tset
                if yes:
                    s1 = st.copy()
                    s1.istates[recv.tok] = replace(cur, status=yes)
                    s1.emit(Event("GUARD", recv.tok, f"{test.func.attr}=True", fr.f.qualname, test.lineno, fr.f.module.relpath))
                    yield s1, True, fr, None
                if no:
                    s2 = st.copy()
                    s2.istates[recv.tok] = replace(cur, status=no)
                    s2.emit(Event("GUARD", recv.tok, f"{test.func.attr}=False", fr.f.qualname, test.lineno, fr.f.module.relpath))
                    yield s2, False, fr, None
                return
        if isinstance(test, ast.Compare) and len(test.ops) == 1 and isinstance(test.ops[0], (ast.Eq, ast.NotEq)):
            l = self.pure(test.left, fr, st)
            r = test.comparators[0]
            if isinstance(l, StatusOf) and isinstance(r, ast.Attribute) and r.attr in self.all_status and l.tok in st.istates:
                cur = st.istates[l.tok]
                yes, no = cur.status & {r.attr}, cur.status - {r.attr}
                eq = isinstance(test.ops[0], ast.Eq)
                if yes:
                    s1 = st.copy()
                    s1.istates[l.tok] = replace(cur, status=frozenset(yes))
                    yield s1, eq, fr, None
                if no:
                    s2 = st.copy()
                    s2.istates[l.tok] = replace(cur, status=frozenset(no))
                    yield s2, (not eq), fr, None
                return
        if isinstance(test, ast.Compare) and len(test.ops) == 1 and isinstance(test.ops[0], (ast.In, ast.NotIn)):
            l = self.pure(test.left, fr, st)
            r = self.pure(test.comparators[0], fr, st)
            if isinstance(l, Inv) and st.members(r) is not None:
                isin = isinstance(test.ops[0], ast.In)
                # the popped id may denote an invocation this call already claimed (a duplicate message)
                if st.members(r):
                    # ... which is only a reason to drop the message when every listed id really is held by this actor
                    held = all(st.istates[m].own and st.istates[m].status and st.istates[m].status <= frozenset({"PENDING", "RUNNING"}) for m in st.members(r) if m in st.istates)
                    s1 = ev(st, Event("GUARD", l.tok, "already-claimed-here" if held else "listed-but-not-claimed", fr.f.qualname, test.lineno, fr.f.module.relpath))
                    yield s1, isin, fr, None
                yield st, (not isin), fr, None
                return
        # exception attribute tests in handlers: e.from_status.is_final()
        if isinstance(test, ast.Constant):
            yield st, bool(test.value), fr, None
            return
        # calls with effects inside a condition (is_candidate..., is_authorize...) are evaluated
        has_call = any(isinstance(x, ast.Call) for x in ast.walk(test))
        if has_call:
            for s, v, exc in self.eval(test, fr, st):
                if exc:
                    yield s, False, fr, exc
                else:
                    yield s, True, fr, None
                    yield s, False, fr, None
            return
        v = self.pure(test, fr, st)
        ms = st.members(v)
        if ms is not None:
            yield st, bool(ms), fr, None
            return
        yield st, True, fr, None
        yield st, False, fr, None

    # ---- expressions
    def pure(self, e: ast.AST, fr: "Frame", st: State):
        """side-effect free evaluation (names, attributes, literals)"""
        if isinstance(e, ast.Name):
            return fr.env.get(e.id, UNK)
        if isinstance(e, ast.Attribute):
            base = self.pure(e.value, fr, st)
            if e.attr == "invocation_id" and isinstance(base, Inv):
                return base
            if e.attr == "invocation_id" and isinstance(e.value, ast.Name) and e.value.id == "self" and isinstance(fr.env.get("self"), Inv):
                return fr.env["self"]
            if e.attr == "invocation" and isinstance(base, Inv):
                return base  # ThreadInfo.invocation
            if e.attr == "status" and isinstance(base, Inv):
                return StatusOf(base.tok)
            if e.attr == "from_status" and isinstance(base, ExcVal):
                return base
            return UNK
        if isinstance(e, ast.Set):
            ms = [self.pure(x, fr, st) for x in e.elts]
            if all(isinstance(m, Inv) for m in ms):
                return IdSet("literal", tuple(m.tok for m in ms))
            return UNK
        if isinstance(e, (ast.List, ast.Tuple)):
            ms = [self.pure(x, fr, st) for x in e.elts]
            if ms and all(isinstance(m, Inv) for m in ms):
                return IdSet("literal", tuple(m.tok for m in ms))
            return tuple(ms) if isinstance(e, ast.Tuple) else UNK
        if isinstance(e, ast.Call) and isinstance(e.func, ast.Name) and e.func.id in ("set", "list") and not e.args:
            return IdSet("empty", ())
        if isinstance(e, ast.Call) and isinstance(e.func, ast.Name) and e.func.id in ("set", "list", "tuple", "sorted") and e.args:
            return self.pure(e.args[0], fr, st)
        if isinstance(e, ast.Subscript):
            b = self.pure(e.value, fr, st)
            ms = st.members(b)
            if ms is not None and isinstance(e.slice, ast.Constant) and isinstance(e.slice.value, int) and e.slice.value < len(ms):
                return Inv(ms[e.slice.value])
            return UNK
        return UNK

    def eval(self, e: ast.AST, fr: "Frame", st: State) -> Iterator[tuple[State, object, ExcVal | None]]:
        """yields (state, value, exception)"""
        if isinstance(e, ast.Call):
            yield from self.call(e, fr, st)
            return
        if isinstance(e, ast.Await):
            yield from self.eval(e.value, fr, st)
            return
        if isinstance(e, ast.NamedExpr):
            for s, v, exc in self.eval(e.value, fr, st):
                if not exc:
                    fr.env[e.target.id] = v
                yield s, v, exc
            return
        if isinstance(e, (ast.BoolOp, ast.UnaryOp, ast.Compare, ast.IfExp, ast.BinOp, ast.JoinedStr, ast.Subscript, ast.Attribute)) and any(isinstance(x, ast.Call) for x in ast.walk(e)):
            # evaluate embedded calls left to right for their effects
            calls = [x for x in ast.walk(e) if isinstance(x, ast.Call)]
            outer = [c for c in calls if not any(c is not d and any(y is c for y in ast.walk(d)) for d in calls)]

            def rec(cs, s0):
                if not cs:
                    yield s0, self.pure(e, fr, s0) if isinstance(e, ast.Attribute) else UNK, None
                    return
                for s, v, exc in self.call(cs[0], fr, s0):
                    if exc:
                        yield s, UNK, exc
                    else:
                        if isinstance(e, ast.Attribute) and e.value is cs[0]:
                            # attribute of a call result
                            yield s, (v if e.attr in ("invocation_id",) and isinstance(v, Inv) else (StatusOf(v.tok) if e.attr == "status" and isinstance(v, Inv) else UNK)), None
                        else:
                            yield from rec(cs[1:], s)

            yield from rec(outer, st)
            return
        if isinstance(e, (ast.ListComp, ast.SetComp, ast.GeneratorExp)):
            # [x.invocation_id for x in invocations] keeps the collection
            src = self.pure(e.generators[0].iter, fr, st)
            if st.members(src) is not None:
                yield st, IdSet("comp", st.members(src)), None
                return
            elt = getattr(e, "elt", None)
            if isinstance(elt, ast.Call) and call_name(elt) in ("from_parent", "isolated"):
                # a batch of new invocations: two generic elements
                def rec2(k, s0, acc):
                    if k == 0:
                        yield s0, IdSet("batch", tuple(acc)), None
                        return
                    for s1, v, exc in self.call(elt, fr, s0):
                        if exc:
                            yield s1, UNK, exc
                        elif isinstance(v, Inv):
                            yield from rec2(k - 1, s1, acc + [v.tok])
                        else:
                            yield s1, UNK, None

                yield from rec2(2, st, [])
                return
            yield st, UNK, None
            return
        yield st, self.pure(e, fr, st), None

    # ---- calls
    def call(self, c: ast.Call, fr: "Frame", st: State) -> Iterator[tuple[State, object, ExcVal | None]]:
        self.tick()
        nm = call_name(c)
        f = fr.f
        loc = dict(func=f.qualname, lineno=c.lineno, file=f.module.relpath)
        # arguments first (they may contain effectful calls)
        inner_calls = [a for a in list(c.args) + [k.value for k in c.keywords] if any(isinstance(x, ast.Call) for x in ast.walk(a))]
        if inner_calls and (nm not in ("next",) or (c.args and isinstance(c.args[0], ast.Call))):
            # evaluate nested calls for effects, then continue with pure values
            def rec(args, s0):
                if not args:
                    yield from self.call_inner(c, nm, fr, s0, loc)
                    return
                for s, v, exc in self.eval(args[0], fr, s0):
                    if exc:
                        yield s, UNK, exc
                    else:
                        fr.env[f"__arg{id(args[0])}"] = v
                        yield from rec(args[1:], s)

            yield from rec(inner_calls, st)
            return
        yield from self.call_inner(c, nm, fr, st, loc)

    def argval(self, a: ast.AST, fr: "Frame", st: State):
        k = f"__arg{id(a)}"
        if k in fr.env:
            return fr.env[k]
        return self.pure(a, fr, st)

    def call_inner(self, c: ast.Call, nm: str, fr: "Frame", st: State, loc: dict) -> Iterator[tuple[State, object, ExcVal | None]]:
        args = [self.argval(a, fr, st) for a in c.args]
        kwargs = {k.arg: self.argval(k.value, fr, st) for k in c.keywords if k.arg}
        # ---------------- primitives
        if nm == "set_invocation_status":
            tokv = args[0] if args else kwargs.get("invocation_id")
            starg = c.args[1] if len(c.args) > 1 else next((k.value for k in c.keywords if k.arg == "status"), None)
            X = starg.attr if isinstance(starg, ast.Attribute) else None
            if not isinstance(tokv, Inv) or X is None or X not in self.all_status:
                yield note(st, f"untracked status request at {loc['file']}:{loc['lineno']}"), UNK, None
                return
            cur = st.istates[tokv.tok]
            preds = frozenset(self.sm.preds(X) - {"START"})
            ok_from = cur.status & preds
            bad_from = cur.status - preds
            if ok_from:
                s1 = st.copy()
                newq = cur.queued if X in self.available else cur.queued
                s1.istates[tokv.tok] = IState(frozenset({X}), own=True, queued=cur.queued, responsible=True, accepted=cur.accepted)
                s1.emit(Event("S", tokv.tok, X, **loc))
                yield s1, UNK, None
            if bad_from or not cur.own:
                s2 = st.copy()
                why = "typestate" if bad_from else "race"
                # on failure nothing changes; if the knowledge was stale the real status is unknown
                if not cur.own:
                    # someone else moved it since we looked: they are responsible for its progress now
                    s2.istates[tokv.tok] = replace(cur, status=(bad_from or (self.all_status - {X})), responsible=cur.responsible and bool(bad_from))
                else:
                    s2.istates[tokv.tok] = replace(cur, status=bad_from)
                s2.emit(Event("S!", tokv.tok, f"{X}:{why}:from={','.join(sorted(bad_from)) if bad_from else 'changed-by-other'}", **loc))
                ff = None
                if bad_from:
                    ff = all(b in self.final for b in bad_from)
                yield s2, UNK, ExcVal("InvocationStatusTransitionError", tokv.tok, ff)
                if not cur.own and self.ownership_errors and (preds & frozenset(self.sm.owned)) and not self.sm.defs.get(X, {}).get("overrides_ownership"):
                    # (validation order: the table is consulted first, so the ownership error needs an OWNED status from
                    # which X is an edge - e.g. KILLED from another runner's RUNNING - otherwise the transition error wins)
                    # another runner may own it by now: the request of a non-owner is refused with the
                    # ownership error (a sibling class of the transition error under InvocationStatusError)
                    s3 = s2.copy()
                    yield s3, UNK, ExcVal("InvocationStatusOwnershipError", tokv.tok, False)
            return
        if nm == "route_invocation":
            tokv = args[0] if args else UNK
            if isinstance(tokv, Inv):
                s1 = st.copy()
                s1.istates[tokv.tok] = replace(s1.istates[tokv.tok], queued=True)
                s1.emit(Event("Q+", tokv.tok, "", **loc))
                yield s1, UNK, None
            else:
                yield note(st, f"untracked route_invocation at {loc['file']}:{loc['lineno']}"), UNK, None
            return
        if nm == "route_invocations":
            v = args[0] if args else UNK
            if st.members(v) is not None:
                s1 = st.copy()
                for m in st.members(v):
                    s1.istates[m] = replace(s1.istates[m], queued=True)
                    s1.emit(Event("Q+", m, "batch", **loc))
                yield s1, UNK, None
            else:
                yield st, UNK, None
            return
        if nm == "retrieve_invocation":
            s1 = st.copy()
            tok = s1.fresh(IState(self.all_status, own=False, queued=False, responsible=True), "q")
            s1.emit(Event("Q-", tok, "", **loc))
            yield s1, Inv(tok), None
            return
        if any(isinstance(x, ast.Attribute) and x.attr == "func" and "task" in ast.unparse(x.value) for x in c.args):
            # execution of the task body
            tok = fr.env.get("self").tok if isinstance(fr.env.get("self"), Inv) else None
            yield ev(st, Event("BODY", tok, "returns", **loc)), UNK, None
            yield ev(st, Event("BODY", tok, "raises", **loc)), UNK, ExcVal(TASK_EXC, tok)
            return
        if nm in ("from_parent", "isolated") and isinstance(c.func, ast.Attribute) and "Invocation" in ast.unparse(c.func.value):
            s1 = st.copy()
            tok = s1.fresh(IState(frozenset(), own=True, queued=False, responsible=True, accepted=False), "n")
            s1.emit(Event("NEW", tok, "", **loc))
            yield s1, Inv(tok), None
            return
        if nm == "_register_new_invocations" and args and st.members(args[0]) is not None:
            s1 = st.copy()
            for m in st.members(args[0]):
                s1.istates[m] = replace(s1.istates[m], status=frozenset({"REGISTERED"}), own=True)
                s1.emit(Event("S", m, "REGISTERED", **loc))
            yield s1, UNK, None
            return
        if nm == "index_arguments_for_concurrency_control" and args and isinstance(args[0], Inv):
            yield ev(st, Event("IDX", args[0].tok, "", **loc)), UNK, None
            return
        if nm == "get_invocation_status" and args and isinstance(args[0], Inv):
            yield st, StatusOf(args[0].tok), None
            return
        if nm == "get_invocation" and args and isinstance(args[0], Inv):
            yield st, args[0], None
            return
        if nm == "get_invocation" and args:
            yield st, UNK, None
            return
        if nm == "add" and isinstance(c.func, ast.Attribute) and isinstance(c.func.value, ast.Name) and args and isinstance(args[0], Inv):
            cur = fr.env.get(c.func.value.id)
            if isinstance(cur, SetRef):
                s1 = st.copy()
                s1.sets[cur.ref] = s1.sets.get(cur.ref, ()) + (args[0].tok,)
                s1.emit(Event("ADD", args[0].tok, c.func.value.id, **loc))
                yield s1, UNK, None
                return
            yield st, UNK, None
            return
        if nm in ("get_pending_invocations_for_recovery",):
            yield st, Source("scan:PENDING"), None
            return
        if nm in ("get_running_invocations_for_recovery",):
            yield st, Source("scan:RUNNING"), None
            return
        if nm == "get_blocking_invocations":
            yield st, Source("blocking"), None
            return
        if nm == "values" and isinstance(c.func, ast.Attribute) and ast.unparse(c.func.value) == "self.threads":
            yield st, Source("threads"), None
            return
        if nm == "start" and isinstance(c.func, ast.Attribute) and isinstance(fr.env.get(ast.unparse(c.func.value)), tuple) and fr.env[ast.unparse(c.func.value)][:1] == ("THREAD",):
            # Thread.start may raise RuntimeError
            tok = fr.env[ast.unparse(c.func.value)][1]
            s1 = st.copy()
            s1.emit(Event("SPAWN", tok, "thread", **loc))
            yield s1, UNK, None
            s2 = st.copy()
            s2.emit(Event("SPAWN!", tok, "RuntimeError", **loc))
            yield s2, UNK, ExcVal("RuntimeError", tok)
            return
        if nm == "Thread":
            tgt = next((k.value for k in c.keywords if k.arg == "target"), None)
            tok = None
            if isinstance(tgt, ast.Attribute):
                b = self.pure(tgt.value, fr, st)
                if isinstance(b, Inv):
                    tok = b.tok
            yield st, ("THREAD", tok), None
            return
        if nm == "ThreadInfo" and len(args) >= 2 and isinstance(args[1], Inv):
            yield st, args[1], None
            return
        if nm == "join" and isinstance(c.func, ast.Attribute) and not c.args and not c.keywords and "thread" in ast.unparse(c.func.value):
            yield ev(st, Event("JOIN", None, "unbounded", **loc)), UNK, None
            return
        if nm in ("list", "set") and isinstance(c.func, ast.Name) and not c.args:
            yield st, IdSet("empty", ()), None
            return
        if nm == "iter" and isinstance(c.func, ast.Name) and len(args) == 1 and isinstance(args[0], GenCall):
            yield st, args[0], None
            return
        if nm == "next" and isinstance(c.func, ast.Name) and args and isinstance(args[0], GenCall):
            # next(generator[, default]): the generator runs to its FIRST yield and is then abandoned -
            # whatever it would do after that yield (deferred re-routing, clean-up) never happens
            v = args[0]

            def on_first(val, s):
                yield s, Outcome("break")

            for s, o in self.exec_func(v.func, dict(v.env), st, on_first):
                if o.kind == "abandon":
                    ys = [e.tok for e, _ in s.trace[len(st.trace):] if e.kind == "YIELD"]
                    s = ev(s, Event("GEN-ABANDONED", None, v.func.name, **loc))
                    yield s, (Inv(ys[-1]) if ys and ys[-1] else UNK), None
                elif o.kind == "return":
                    if len(args) > 1:
                        yield s, UNK if args[1] is UNK else args[1], None
                    else:
                        yield s, UNK, ExcVal("StopIteration", None)
                elif o.kind == "raise":
                    yield s, UNK, o.exc
                else:
                    yield s, UNK, None
            return
        if nm in ("list", "set", "tuple") and isinstance(c.func, ast.Name) and c.args:
            v = args[0]
            if isinstance(v, GenCall):
                # list(generator): consume it completely, collect yielded tokens
                collected: list = []

                def on_y(val, s):
                    if isinstance(val, Inv):
                        collected.append(val.tok)
                    yield s, Outcome("normal")

                for s, o in self.exec_func(v.func, dict(v.env), st, on_y):
                    if o.kind == "return":
                        toks = tuple(e.tok for e, _ in s.trace[len(st.trace):] if e.kind == "YIELD" and e.tok)
                        yield s, IdSet("listed", toks), None
                    elif o.kind == "raise":
                        yield s, UNK, o.exc
                    else:
                        yield s, UNK, None
                return
            yield st, v, None
            return
        # ---------------- repo callees
        targets, how = self.rs.call_targets(fr.f, c)
        cands = [t for t in targets if not t.is_abstract and t.module.name.startswith("pynenc") and self.effectful(t)]
        if how == "name":
            # name-based: keep orchestrator / runner / invocation level functions only
            cands = [t for t in cands if t.cls is not None and t.cls.name in ("BaseOrchestrator", "BaseRunner", "DistributedInvocation", "ThreadRunner")]
        # a method called on self with several overrides: prefer the class of the frame
        if len(cands) > 1 and isinstance(c.func, ast.Attribute) and isinstance(c.func.value, ast.Name) and c.func.value.id == "self" and fr.self_cls is not None:
            m = fr.self_cls.find_method(nm)
            if m is not None and m in cands:
                cands = [m]
        if len(cands) > 1:
            pref = [t for t in cands if t.cls is not None and t.cls.name in ("BaseOrchestrator", "BaseRunner", "DistributedInvocation")]
            cands = pref[:1] or cands[:1]
        if not cands:
            yield st, UNK, None
            return
        callee = cands[0]
        env = self.bind_params(callee, c, args, kwargs, fr, st)
        is_gen = any(isinstance(x, (ast.Yield, ast.YieldFrom)) for x in walk_no_nested(callee.node))
        if is_gen:
            yield st, GenCall(callee, tuple(env.items())), None
            return
        for s, o in self.exec_func(callee, env, ev(st, Event("CALL", None, callee.name, **loc)), None):
            # propagate mutations of shared id sets back to the caller's variables
            if o.kind == "return":
                yield s, o.value, None
            elif o.kind == "raise":
                yield s, UNK, o.exc
            else:
                yield s, UNK, None

    def bind_params(self, callee: FuncInfo, c: ast.Call, args: list, kwargs: dict, fr: "Frame", st: State) -> dict:
        a = callee.node.args
        params = [x.arg for x in a.posonlyargs + a.args]
        env: dict = {}
        offset = 0
        if callee.cls is not None and not callee.is_static and params:
            # self: the receiver
            recv = self.pure(c.func.value, fr, st) if isinstance(c.func, ast.Attribute) else UNK
            env[params[0]] = recv
            offset = 1
            env["__self_cls__"] = callee.cls
            if isinstance(c.func, ast.Attribute) and isinstance(c.func.value, ast.Name) and c.func.value.id == "self" and fr.self_cls is not None:
                env["__self_cls__"] = fr.self_cls
        for i, v in enumerate(args):
            if i + offset < len(params):
                env[params[i + offset]] = v
        for k, v in kwargs.items():
            env[k] = v
        for p in a.kwonlyargs:
            env.setdefault(p.arg, UNK)
        env["__depth__"] = fr.env.get("__depth__", 0) + 1
        return env


class Frame:
    def __init__(self, f: FuncInfo, env: dict, on_yield=None) -> None:
        self.f = f
        self.env = env
        self.on_yield = on_yield
        sc = env.get("__self_cls__")
        self.self_cls: ClassInfo | None = sc if isinstance(sc, ClassInfo) else f.cls

    def fork(self) -> "Frame":
        fr = Frame(self.f, dict(self.env), self.on_yield)
        fr.self_cls = self.self_cls
        return fr

    def with_env(self, env: dict) -> "Frame":
        fr = Frame(self.f, dict(env), self.on_yield)
        fr.self_cls = self.self_cls
        return fr

